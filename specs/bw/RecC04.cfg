INIT Init
NEXT Next
INVARIANTS C04_LayerNoMix C04_ObsCompletedLeavesNothing C04_ObsWhole C04_ObsNoLeftovers K04_ObsCurrent C04_NoMix K04_ConcCompletes C04_ExactUp C04_ExactDown C04_Options C04_Once C04_Ends C04_NoLeftovers K04_Conforms K04_Completes
