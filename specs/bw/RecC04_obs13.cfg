INIT Init
NEXT Next
INVARIANTS C04_ObsNoLeftovers C04_ObsCompletedLeavesNothing
