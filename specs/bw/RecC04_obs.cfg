INIT Init
NEXT Next
INVARIANTS C04_ObsWhole
