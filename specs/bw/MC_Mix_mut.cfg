SPECIFICATION Spec
CONSTANTS
  NB = 3
  SameKey = TRUE
INVARIANTS NoMix ExactlyOnce
