SPECIFICATION Spec
CONSTANTS
  NB = 3
  MaxVer = 3
  MaxFetch = 3
  MaxPlan = 3
  CheckETag = TRUE
INVARIANTS NoMix TypeOK
